//! `verif-native eval`: evaluate hooked leaf functions of the real crate on concrete inputs.
//! Reads one JSON object per line `{"fn": "...", "args": [...]}`, answers one JSON object per line
//! `{"kind": "return" | "panic", "value": ...}`.  Used to replay solver witnesses and to validate the
//! MIR interpreter + std models against the compiled code.

use scrut::escaping::Escaper;
use scrut::rules::rule::RuleMaker;
use serde_json::json;
use serde_json::Value;
use std::io::BufRead;
use std::panic;

fn bytes_arg(v: &Value) -> Vec<u8> {
    match v {
        Value::String(s) => s.as_bytes().to_vec(),
        Value::Array(a) => a.iter().map(|x| x.as_u64().unwrap() as u8).collect(),
        _ => vec![],
    }
}

fn str_arg(v: &Value) -> String {
    match v {
        Value::String(s) => s.clone(),
        Value::Array(a) => {
            // array of code points
            a.iter()
                .map(|x| char::from_u32(x.as_u64().unwrap() as u32).unwrap())
                .collect()
        }
        _ => String::new(),
    }
}

fn bytes_val(b: &[u8]) -> Value {
    Value::Array(b.iter().map(|x| json!(*x)).collect())
}

fn escaper(v: &Value) -> Escaper {
    match v.as_str().unwrap_or("unicode") {
        "ascii" => Escaper::Ascii,
        _ => Escaper::Unicode,
    }
}

fn eval(name: &str, a: &[Value]) -> Value {
    match name {
        "space_start_index" => {
            json!(scrut::renderers::pretty::verif_hooks::space_start_index(&str_arg(&a[0])))
        }
        "higlight_tailing_spaces" => {
            json!(scrut::renderers::pretty::verif_hooks::higlight_tailing_spaces(&str_arg(&a[0])))
        }
        "decorator_output_line_number" => {
            let num = if a[1].is_null() { None } else { Some(a[1].as_u64().unwrap() as usize) };
            json!(scrut::renderers::pretty::verif_hooks::decorator_output_line_number(
                a[0].as_u64().unwrap() as usize,
                num
            ))
        }
        "extract_code_block_start" => {
            let s = str_arg(&a[0]);
            match scrut::parsers::markdown::verif_hooks::extract_code_block_start(&s) {
                None => Value::Null,
                Some((t, l, c)) => json!({"Some": [t, l, c]}),
            }
        }
        "extract_title" => {
            let s = str_arg(&a[0]);
            match scrut::parsers::markdown::verif_hooks::extract_title(&s) {
                None => Value::Null,
                Some((h, t)) => json!({"Some": [h, t]}),
            }
        }
        "markdown_tokens" => {
            // args: [lines: [str], languages: [str]]
            let lines: Vec<String> = a[0].as_array().unwrap().iter().map(str_arg).collect();
            let langs: Vec<String> = a[1].as_array().unwrap().iter().map(str_arg).collect();
            let langs: Vec<&str> = langs.iter().map(|s| s.as_str()).collect();
            // every line is newline-terminated, so that `str::lines` yields exactly `lines` (also a final empty one)
            let text = lines.iter().map(|l| format!("{}\n", l)).collect::<String>();
            let toks = scrut::parsers::markdown::verif_hooks::tokenize(&text, &langs);
            let mut accounted = 0usize;
            let mut consistent = true;
            let mut shape = vec![];
            for (kind, count, carried) in &toks {
                shape.push(format!("{}:{}", kind, count));
                for (index, content) in carried {
                    if *index >= lines.len() || lines[*index] != *content || *index < accounted || *index >= accounted + count {
                        consistent = false;
                    }
                }
                accounted += count;
            }
            if accounted == lines.len() + 1 {
                if let Some((kind, _, _)) = toks.last() {
                    if *kind == "config" || *kind == "test" {
                        // block without closing line that runs to the end of the document
                        accounted -= 1;
                    }
                }
            }
            let why = if accounted < lines.len() {
                // which construct swallowed the tail?
                let rest = &lines[accounted..];
                if rest.first().map(|l| l == "---").unwrap_or(false) { "unterminated-front-matter" } else { "unterminated-fence" }
            } else if accounted > lines.len() { "overcount" } else if !consistent { "content-mismatch" } else { "" };
            json!({"accounted": accounted, "consistent": consistent, "shape": shape.join(" "), "why": why})
        }
        "markdown_parse" => {
            use scrut::parsers::parser::Parser;
            let text = str_arg(&a[0]);
            let langs: Vec<String> = a[1].as_array().unwrap().iter().map(str_arg).collect();
            let langs: Vec<&str> = langs.iter().map(|s| s.as_str()).collect();
            let maker = std::sync::Arc::new(scrut::expectation::ExpectationMaker::new(
                scrut::rules::registry::RuleRegistry::default(),
            ));
            let parser = scrut::parsers::markdown::MarkdownParser::new(maker, &langs, None);
            match parser.parse(&text) {
                Ok((_config, tests)) => json!({"Ok": tests.iter().map(|t| json!({
                    "title": t.title, "shell_expression": t.shell_expression, "line_number": t.line_number,
                    "exit_code": t.exit_code,
                    "expectations": t.expectations.iter().map(|e| e.original_string()).collect::<Vec<_>>(),
                    "keep_crlf": t.config.keep_crlf,
                })).collect::<Vec<_>>()}),
                Err(e) => json!({"Err": format!("{:#}", e)}),
            }
        }
        // layers: [cfg0, cfg1, ...]; op "defaults": ((c0.wd(c1)).wd(c2))..; "defaults_right": c0.wd(c1.wd(c2..)); "overrides": c0.wo(c1)
        "tcc_merge" => {
            let op = a[0].as_str().unwrap();
            let layers: Vec<_> = a[1].as_array().unwrap().iter().map(crate::cfg::tcc_from).collect();
            let r = match op {
                "defaults" => layers[1..].iter().fold(layers[0].clone(), |acc, l| acc.with_defaults_from(l)),
                "defaults_right" => {
                    let mut acc = layers[layers.len() - 1].clone();
                    for l in layers[..layers.len() - 1].iter().rev() {
                        acc = l.with_defaults_from(&acc);
                    }
                    acc
                }
                "overrides" => layers[1..].iter().fold(layers[0].clone(), |acc, l| acc.with_overrides_from(l)),
                _ => layers[0].clone(),
            };
            crate::cfg::tcc_to(&r)
        }
        "doc_merge" => {
            let op = a[0].as_str().unwrap();
            let layers: Vec<_> = a[1].as_array().unwrap().iter().map(crate::cfg::doc_from).collect();
            let r = match op {
                "defaults" => layers[1..].iter().fold(layers[0].clone(), |acc, l| acc.with_defaults_from(l)),
                "overrides" => layers[1..].iter().fold(layers[0].clone(), |acc, l| acc.with_overrides_from(l)),
                _ => layers[0].clone(),
            };
            crate::cfg::doc_to(&r)
        }
        // {"expected": i32|null, "output_stream": "Stdout"|"Stderr"|"Combined"|null, "status": "Code"|.., "code": i32|null, "has_diff": bool}
        "validate" => {
            use scrut::output::ExitStatus;
            let w = &a[0];
            let mut config = if w["config"].is_object() { crate::cfg::tcc_from(&w["config"]) } else { scrut::config::TestCaseConfig::empty() };
            config.output_stream = match w["output_stream"].as_str() {
                Some("Stdout") => Some(scrut::config::OutputStreamControl::Stdout),
                Some("Stderr") => Some(scrut::config::OutputStreamControl::Stderr),
                Some("Combined") => Some(scrut::config::OutputStreamControl::Combined),
                _ => None,
            };
            let intended = if w["output_stream"].as_str() == Some("Stderr") { "e" } else { "o" };
            let maker = scrut::expectation::ExpectationMaker::new(scrut::rules::registry::RuleRegistry::default());
            let expectation = if w["has_diff"].as_bool().unwrap_or(false) { "zzz" } else { intended };
            let testcase = scrut::testcase::TestCase {
                title: "t".into(),
                shell_expression: "true".into(),
                expectations: if w["with_expectation"].as_bool().unwrap_or(true) { vec![maker.parse(expectation).unwrap()] } else { vec![] },
                exit_code: w["expected"].as_i64().map(|x| x as i32),
                line_number: 1,
                config,
            };
            let status = match w["status"].as_str().unwrap_or("Unknown") {
                "Code" => ExitStatus::Code(w["code"].as_i64().unwrap_or(0) as i32),
                "Timeout" => ExitStatus::Timeout(std::time::Duration::from_secs(1)),
                "Skipped" => ExitStatus::Skipped,
                "Detached" => ExitStatus::Detached,
                _ => ExitStatus::Unknown,
            };
            let output = scrut::output::Output {
                stdout: (if w["stdout_written"].as_bool().unwrap_or(true) { b"o\n".to_vec() } else { vec![] }).into(),
                stderr: (if w["stderr_written"].as_bool().unwrap_or(true) { b"e\n".to_vec() } else { vec![] }).into(),
                exit_code: status,
            };
            match testcase.validate(&output) {
                Ok(()) => json!({"Ok": Value::Null, "diffed": if intended == "e" { "stderr" } else { "stdout" }}),
                Err(scrut::testcase::TestCaseError::InvalidExitCode { actual, expected }) => {
                    json!({"Err": {"InvalidExitCode": [actual, expected]}})
                }
                Err(scrut::testcase::TestCaseError::MalformedOutput(diff)) => {
                    let mut diffed = "?";
                    for l in &diff.lines {
                        if let scrut::diff::DiffLine::UnexpectedLines { lines } = l {
                            if let Some((_, bytes)) = lines.first() {
                                diffed = if bytes.starts_with(b"e") { "stderr" } else { "stdout" };
                            }
                        }
                    }
                    json!({"Err": "MalformedOutput", "diffed": diffed})
                }
                Err(scrut::testcase::TestCaseError::InternalError(e)) => json!({"Err": format!("InternalError: {}", e)}),
                Err(scrut::testcase::TestCaseError::Timeout) => json!({"Err": "Timeout"}),
                Err(scrut::testcase::TestCaseError::Skipped) => json!({"Err": "Skipped"}),
            }
        }
        "execute_all" => crate::exec::execute_all(&a[0]),
        // parse a Markdown document, pretend every test passed with its expected exit code, run the update generator
        "markdown_update" => {
            use scrut::generators::generator::UpdateGenerator;
            use scrut::parsers::parser::Parser;
            let text = str_arg(&a[0]);
            let langs: Vec<String> = a[1].as_array().unwrap().iter().map(str_arg).collect();
            let langs: Vec<&str> = langs.iter().map(|s| s.as_str()).collect();
            let maker = std::sync::Arc::new(scrut::expectation::ExpectationMaker::new(scrut::rules::registry::RuleRegistry::default()));
            let parser = scrut::parsers::markdown::MarkdownParser::new(maker, &langs, None);
            let tests = match parser.parse(&text) { Ok((_c, t)) => t, Err(e) => return json!({"parse_error": format!("{:#}", e)}) };
            // optional 3rd argument: indices of tests that now print the single line `zz` instead (validated for real: the diff is DiffTool's)
            let fails: Vec<usize> = a.get(2).and_then(|v| v.as_array()).map(|v| v.iter().filter_map(|x| x.as_u64().map(|n| n as usize)).collect()).unwrap_or_default();
            // optional 4th argument: indices of tests that now print `zz` and end with exit code 3 (no template writes that code)
            let code_fails: Vec<usize> = a.get(3).and_then(|v| v.as_array()).map(|v| v.iter().filter_map(|x| x.as_u64().map(|n| n as usize)).collect()).unwrap_or_default();
            let outcomes: Vec<scrut::outcome::Outcome> = tests.iter().enumerate().map(|(i, t)| {
                let failing = fails.contains(&i) || code_fails.contains(&i);
                let output = scrut::output::Output { stdout: (if failing { b"zz\n".to_vec() } else { vec![] }).into(), stderr: vec![].into(),
                    exit_code: scrut::output::ExitStatus::Code(if code_fails.contains(&i) { 3 } else { t.exit_code.unwrap_or(0) }) };
                let result = if failing { t.validate(&output) } else { Ok(()) };
                scrut::outcome::Outcome { location: None, output, testcase: t.clone(), format: scrut::parsers::parser::ParserType::Markdown,
                    escaping: scrut::escaping::Escaper::Unicode, result }
            }).collect();
            let refs: Vec<&scrut::outcome::Outcome> = outcomes.iter().collect();
            match scrut::generators::markdown::MarkdownUpdateGenerator::new(&langs).generate_update(&text, &refs) {
                Ok(u) => {
                    // parse the updated document again: same commands and expectation lines?
                    let summary = |ts: &Vec<scrut::testcase::TestCase>| ts.iter().map(|t| json!({"shell_expression": t.shell_expression,
                        "exit_code": t.exit_code,
                        "expectations": t.expectations.iter().map(|e| e.original_string()).collect::<Vec<_>>()})).collect::<Vec<_>>();
                    let again = match parser.parse(&u) { Ok((_c, t)) => json!({"Ok": summary(&t)}), Err(e) => json!({"Err": format!("{:#}", e)}) };
                    json!({"updated": u, "tests": tests.len(), "original": summary(&tests), "reparsed": again})
                }
                Err(e) => json!({"update_error": format!("{:#}", e), "tests": tests.len()}),
            }
        }
        "cram_parse" => {
            use scrut::parsers::parser::Parser;
            let maker = std::sync::Arc::new(scrut::expectation::ExpectationMaker::new(scrut::rules::registry::RuleRegistry::default()));
            match scrut::parsers::cram::CramParser::new(maker, 2).parse(&str_arg(&a[0])) {
                Ok((_config, tests)) => json!({"Ok": tests.iter().map(|t| json!({
                    "title": t.title, "shell_expression": t.shell_expression, "line_number": t.line_number, "exit_code": t.exit_code,
                    "expectations": t.expectations.iter().map(|e| e.original_string()).collect::<Vec<_>>(),
                    "output_stream": t.config.output_stream.as_ref().map(|o| format!("{:?}", o)), "keep_crlf": t.config.keep_crlf,
                })).collect::<Vec<_>>()}),
                Err(e) => json!({"Err": format!("{:#}", e)}),
            }
        }
        // [line, "ascii"|"unicode", probe bytes]
        "expectation_roundtrip" => {
            let maker = scrut::expectation::ExpectationMaker::new(scrut::rules::registry::RuleRegistry::default());
            let line = str_arg(&a[0]);
            let esc = escaper(&a[1]);
            let probe = bytes_arg(&a[2]);
            match maker.parse(&line) {
                Err(_) => json!({"original_parses": false}),
                Ok(e1) => {
                    let rendered = e1.to_expression_string(&esc);
                    match maker.parse(&rendered) {
                        Err(err) => json!({"original_parses": true, "rendered": rendered, "rendered_parses": false, "error": err.to_string()}),
                        Ok(e2) => json!({"original_parses": true, "rendered": rendered, "rendered_parses": true,
                            "flags_equal": e1.optional == e2.optional && e1.multiline == e2.multiline,
                            "same_verdict": e1.matches(&probe) == e2.matches(&probe)}),
                    }
                }
            }
        }
        // render a TestCaseConfig as one-liner, put it on a scrut fence, parse the document back, compare
        "one_liner_roundtrip" => {
            use scrut::parsers::parser::Parser;
            let config = crate::cfg::tcc_from(&a[0]);
            let (rendered, doc) = if a.get(1).and_then(|v| v.as_str()) == Some("generator") {
                // through the Markdown generator of `create` / `--convert`: it decides whether a `{...}` is written at all
                use scrut::generators::generator::TestCaseGenerator;
                let testcase = scrut::testcase::TestCase { title: "".into(), shell_expression: "true".into(), expectations: vec![], exit_code: None,
                    line_number: 1, config: config.with_defaults_from(&scrut::config::TestCaseConfig::default_markdown()) };
                let outcome = scrut::outcome::Outcome { location: None, output: ("", "", Some(0)).into(), testcase,
                    format: scrut::parsers::parser::ParserType::Markdown, escaping: scrut::escaping::Escaper::Unicode, result: Ok(()) };
                match scrut::generators::markdown::MarkdownTestCaseGenerator::default().generate_testcases(&[&outcome]) {
                    Ok(d) => (d.lines().next().unwrap_or("").to_string(), d),
                    Err(e) => return json!({"equal": false, "rendered": format!("generator error: {:#}", e)}),
                }
            } else {
                let rendered = config.to_yaml_one_liner();
                let doc = format!("```scrut {}\n$ true\n```\n", rendered);
                (rendered, doc)
            };
            let generator_mode = a.get(1).and_then(|v| v.as_str()) == Some("generator");
            let maker = std::sync::Arc::new(scrut::expectation::ExpectationMaker::new(scrut::rules::registry::RuleRegistry::default()));
            let parser = scrut::parsers::markdown::MarkdownParser::new(maker, &["scrut"], Some(scrut::config::TestCaseConfig::empty()));
            match parser.parse(&doc) {
                Ok((_d, tests)) if tests.len() == 1 => {
                    let back = &tests[0].config;
                    // generator mode: compare what is in effect (the Markdown defaults fill the keys that were not written)
                    let (x, y) = if generator_mode {
                        let d = scrut::config::TestCaseConfig::default_markdown();
                        (back.with_defaults_from(&d), config.with_defaults_from(&d))
                    } else { (back.clone(), config.clone()) };
                    json!({"equal": x == y, "rendered": rendered, "parsed": crate::cfg::tcc_to(back)})
                }
                Ok((_d, tests)) => json!({"equal": false, "rendered": rendered, "parsed": format!("{} tests", tests.len())}),
                Err(e) => json!({"equal": false, "rendered": rendered, "parsed": format!("error: {:#}", e)}),
            }
        }
        // [output bytes, "ascii"|"unicode", "markdown"|"cram"]: create a test from (command `cmd`, this output), parse the
        // generated document back and validate it against the same output
        "generate_and_validate" => {
            use scrut::generators::generator::TestCaseGenerator;
            use scrut::parsers::parser::Parser;
            let stdout = bytes_arg(&a[0]);
            let esc = escaper(&a[1]);
            let cram = a[2].as_str() == Some("cram");
            let output = scrut::output::Output { stdout: stdout.clone().into(), stderr: vec![].into(), exit_code: scrut::output::ExitStatus::Code(0) };
            // optional 6th argument: true = `--convert markdown` of a Cram test (Cram defaults on the test case, Markdown generator and parser)
            let convert = a.get(5).and_then(|v| v.as_bool()).unwrap_or(false);
            let config = if cram || convert { scrut::config::TestCaseConfig::default_cram() } else { scrut::config::TestCaseConfig::default_markdown() };
            // optional 4th argument: the expectation lines the test already has (the `update` of a failing test)
            let maker0 = scrut::expectation::ExpectationMaker::new(scrut::rules::registry::RuleRegistry::default());
            let mut existing = vec![];
            if let Some(lines) = a.get(3).and_then(|v| v.as_array()) {
                for l in lines {
                    match maker0.parse(&str_arg(l)) {
                        Ok(e) => existing.push(e),
                        Err(e) => return json!({"passes": false, "why": format!("existing expectation: {:#}", e)}),
                    }
                }
            }
            // optional 5th argument: the shell expression (default `cmd`)
            let expression = a.get(4).map(str_arg).unwrap_or_else(|| "cmd".to_string());
            let testcase = scrut::testcase::TestCase { title: "".into(), shell_expression: expression.clone(), expectations: existing, exit_code: None,
                line_number: 1, config };
            let result = testcase.validate(&output);
            if result.is_ok() {
                return json!({"passes": true, "document": "(the existing test passes: nothing is rewritten)"});
            }
            let outcome = scrut::outcome::Outcome { location: None, output: output.clone(), testcase,
                format: if cram || convert { scrut::parsers::parser::ParserType::Cram } else { scrut::parsers::parser::ParserType::Markdown },
                escaping: esc, result };
            let generated = if cram {
                scrut::generators::cram::CramTestCaseGenerator::default().generate_testcases(&[&outcome])
            } else {
                scrut::generators::markdown::MarkdownTestCaseGenerator::default().generate_testcases(&[&outcome])
            };
            let text = match generated { Ok(t) => t, Err(e) => return json!({"passes": false, "why": format!("generate: {:#}", e)}) };
            let maker = std::sync::Arc::new(scrut::expectation::ExpectationMaker::new(scrut::rules::registry::RuleRegistry::default()));
            let parsed = if cram {
                scrut::parsers::cram::CramParser::new(maker, 2).parse(&text)
            } else {
                scrut::parsers::markdown::MarkdownParser::new(maker, &["scrut"], None).parse(&text)
            };
            let tests = match parsed { Ok((_c, t)) => t, Err(e) => return json!({"passes": false, "why": format!("parse: {:#}", e), "document": text}) };
            if tests.len() != 1 {
                return json!({"passes": false, "why": format!("{} test cases", tests.len()), "document": text});
            }
            if tests[0].shell_expression != expression {
                return json!({"passes": false, "why": format!("shell expression {:?}", tests[0].shell_expression), "document": text});
            }
            if convert && (tests[0].config.output_stream != Some(scrut::config::OutputStreamControl::Combined) || tests[0].config.keep_crlf != Some(true)) {
                return json!({"passes": false, "why": "the converted test lost the Cram stream / line-ending configuration", "document": text});
            }
            match tests[0].validate(&output) {
                Ok(()) => json!({"passes": true, "document": text}),
                Err(e) => json!({"passes": false, "why": format!("validate: {:?}", std::mem::discriminant(&e)), "document": text}),
            }
        }
        // `update` of a test case that failed on its exit code: the real parser, update generator and validate on a real document.
        // {"stdout": bytes, "stderr": bytes, "exit": n, "expected": n|null, "stream": null|"stdout"|"stderr"|"combined", "escaper", "cram": bool,
        //  "existing": [expectation lines]}
        "update_exit_code" => {
            use scrut::generators::generator::UpdateGenerator;
            use scrut::parsers::parser::Parser;
            let w = &a[0];
            let cram = w["cram"].as_bool().unwrap_or(false);
            let output = scrut::output::Output { stdout: bytes_arg(&w["stdout"]).into(), stderr: bytes_arg(&w["stderr"]).into(),
                exit_code: scrut::output::ExitStatus::Code(w["exit"].as_i64().unwrap_or(0) as i32) };
            let existing: Vec<String> = w["existing"].as_array().map(|v| v.iter().map(str_arg).collect()).unwrap_or_default();
            let expected_line = w["expected"].as_i64().map(|e| format!("[{}]", e));
            let mut doc = String::new();
            if cram {
                doc.push_str("title\n  $ cmd\n");
                for l in &existing { doc.push_str(&format!("  {}\n", l)); }
                if let Some(l) = &expected_line { doc.push_str(&format!("  {}\n", l)); }
            } else {
                let cfg = match w["stream"].as_str() { Some(s) => format!(" {{output_stream: {}}}", s), None => "".to_string() };
                doc.push_str(&format!("# title\n\n```scrut{}\n$ cmd\n", cfg));
                for l in &existing { doc.push_str(&format!("{}\n", l)); }
                if let Some(l) = &expected_line { doc.push_str(&format!("{}\n", l)); }
                doc.push_str("```\n");
            }
            let maker = || std::sync::Arc::new(scrut::expectation::ExpectationMaker::new(scrut::rules::registry::RuleRegistry::default()));
            let parse = |text: &str| if cram { scrut::parsers::cram::CramParser::new(maker(), 2).parse(text) }
                                     else { scrut::parsers::markdown::MarkdownParser::new(maker(), &["scrut"], None).parse(text) };
            let tests = match parse(&doc) { Ok((_c, t)) => t, Err(e) => return json!({"passes": false, "why": format!("original does not parse: {:#}", e), "document": doc}) };
            if tests.len() != 1 { return json!({"passes": false, "why": "original: not one test", "document": doc}); }
            let mut testcase = tests[0].clone();
            if cram {
                if let Some(s) = w["stream"].as_str() {
                    testcase.config.output_stream = Some(match s { "stderr" => scrut::config::OutputStreamControl::Stderr,
                        "combined" => scrut::config::OutputStreamControl::Combined, _ => scrut::config::OutputStreamControl::Stdout });
                }
            }
            let config = testcase.config.clone();
            let result = testcase.validate(&output);
            let kind = match &result { Ok(()) => "Ok".to_string(), Err(e) => format!("{:?}", std::mem::discriminant(e)) };
            if result.is_ok() { return json!({"passes": true, "first": kind, "document": "(the test passes: nothing is rewritten)"}); }
            let outcome = scrut::outcome::Outcome { location: None, output: output.clone(), testcase,
                format: if cram { scrut::parsers::parser::ParserType::Cram } else { scrut::parsers::parser::ParserType::Markdown },
                escaping: escaper(&w["escaper"]), result };
            let updated = if cram { scrut::generators::cram::CramUpdateGenerator::default().generate_update(&doc, &[&outcome]) }
                          else { scrut::generators::markdown::MarkdownUpdateGenerator::default().generate_update(&doc, &[&outcome]) };
            let text = match updated { Ok(t) => t, Err(e) => return json!({"passes": false, "first": kind, "why": format!("update: {:#}", e)}) };
            let tests = match parse(&text) { Ok((_c, t)) => t, Err(e) => return json!({"passes": false, "first": kind, "why": format!("parse: {:#}", e), "document": text}) };
            if tests.len() != 1 { return json!({"passes": false, "first": kind, "why": format!("{} test cases", tests.len()), "document": text}); }
            if tests[0].shell_expression != "cmd" { return json!({"passes": false, "first": kind, "why": "shell expression changed", "document": text}); }
            let mut again = tests[0].clone();
            if cram { again.config = config; }
            match again.validate(&output) {
                Ok(()) => json!({"passes": true, "first": kind, "document": text}),
                Err(e) => json!({"passes": false, "first": kind, "why": format!("validate: {:?}", e).chars().take(200).collect::<String>(), "document": text}),
            }
        }
        "parse_expectation" => {
            let maker = scrut::expectation::ExpectationMaker::new(scrut::rules::registry::RuleRegistry::default());
            match maker.parse(&str_arg(&a[0])) {
                Ok(e) => {
                    let (kind, expression, optional, multiline) = e.unmake();
                    json!({"Ok": {"kind": kind, "expression": String::from_utf8_lossy(&expression), "optional": optional, "multiline": multiline}})
                }
                Err(err) => json!({"Err": format!("{:#}", err)}),
            }
        }
        // {"expectations": n, "items": [{"kind":"U","index":i} | {"kind":"M","index":i,"line":j,"multiline":b} | {"kind":"X","line":j}],
        //  "absolute": bool, "line_number": usize}: render a MalformedOutput outcome with the real pretty renderer
        "pretty_render" => {
            use scrut::renderers::renderer::Renderer;
            let w = &a[0];
            let n = w["expectations"].as_u64().unwrap_or(1) as usize;
            let maker = scrut::expectation::ExpectationMaker::new(scrut::rules::registry::RuleRegistry::default());
            let exps: Vec<_> = (0..n).map(|i| maker.parse(&format!("e{} (?)", i)).unwrap()).collect();
            let mut lines = vec![];
            for it in w["items"].as_array().unwrap() {
                let idx = it["index"].as_u64().unwrap_or(0) as usize;
                let ln = it["line"].as_u64().unwrap_or(0) as usize;
                match it["kind"].as_str().unwrap() {
                    "U" => lines.push(scrut::diff::DiffLine::UnmatchedExpectation { index: idx, expectation: exps[idx.min(n - 1)].clone() }),
                    "M" => {
                        let mut e = exps[idx.min(n - 1)].clone();
                        e.multiline = it["multiline"].as_bool().unwrap_or(false);
                        lines.push(scrut::diff::DiffLine::MatchedExpectation { index: idx, expectation: e, lines: vec![(ln, b"x\n".to_vec())] })
                    }
                    _ => lines.push(scrut::diff::DiffLine::UnexpectedLines { lines: vec![(ln, b"x\n".to_vec())] }),
                }
            }
            let diff = scrut::diff::Diff::new(lines);
            let testcase = scrut::testcase::TestCase { title: "t".into(), shell_expression: "x".into(), expectations: exps, exit_code: None,
                line_number: w["line_number"].as_u64().unwrap_or(1) as usize, config: scrut::config::TestCaseConfig::empty() };
            let outcome = scrut::outcome::Outcome { location: None, output: ("", "", Some(0)).into(), testcase,
                format: scrut::parsers::parser::ParserType::Markdown, escaping: scrut::escaping::Escaper::Unicode,
                result: Err(scrut::testcase::TestCaseError::MalformedOutput(diff)) };
            let renderer = scrut::renderers::pretty::PrettyMonochromeRenderer::new(scrut::renderers::pretty::PrettyColorRenderer {
                max_surrounding_lines: 5, absolute_line_numbers: w["absolute"].as_bool().unwrap_or(false), summarize: true });
            match renderer.render(&[&outcome]) {
                Ok(s) => json!({"Ok": s.len()}),
                Err(e) => json!({"Err": e.to_string()}),
            }
        }
        // pretty and diff renderer on a diff shape: "M" matched, "U" unmatched expectation, "X" run of two unexpected lines; texts exp<i>q / out<j>z
        "render_diff_shape" => {
            use scrut::renderers::renderer::Renderer;
            let kinds = str_arg(&a[0]);
            let surrounding = a[1].as_u64().unwrap_or(5) as usize;
            let maker = scrut::expectation::ExpectationMaker::new(scrut::rules::registry::RuleRegistry::default());
            let (mut items, mut exps) = (vec![], vec![]);
            let (mut ei, mut li) = (0usize, 0usize);
            for k in kinds.chars() {
                match k {
                    'U' => { let e = maker.parse(&format!("exp{}q", ei)).unwrap(); exps.push(e.clone());
                             items.push(scrut::diff::DiffLine::UnmatchedExpectation { index: ei, expectation: e }); ei += 1; }
                    'M' => { let e = maker.parse(&format!("exp{}q", ei)).unwrap(); exps.push(e.clone());
                             items.push(scrut::diff::DiffLine::MatchedExpectation { index: ei, expectation: e, lines: vec![(li, format!("exp{}q\n", ei).into_bytes())] }); ei += 1; li += 1; }
                    _ => { let mut run = vec![]; for _ in 0..2 { run.push((li, format!("out{}z\n", li).into_bytes())); li += 1; }
                           items.push(scrut::diff::DiffLine::UnexpectedLines { lines: run }); }
                }
            }
            let diff = scrut::diff::Diff::new(items);
            let testcase = scrut::testcase::TestCase { title: "t".into(), shell_expression: "cmd".into(), expectations: exps, exit_code: None,
                line_number: 3, config: scrut::config::TestCaseConfig::empty() };
            let outcome = scrut::outcome::Outcome { location: None, output: ("", "", Some(0)).into(), testcase,
                format: scrut::parsers::parser::ParserType::Markdown, escaping: scrut::escaping::Escaper::Unicode,
                result: Err(scrut::testcase::TestCaseError::MalformedOutput(diff)) };
            let show = |r: std::thread::Result<anyhow::Result<String>>| match r {
                Ok(Ok(s)) => json!({"Ok": s}), Ok(Err(e)) => json!({"Err": format!("{:#}", e)}), Err(_) => json!({"panic": true}) };
            let o1 = std::panic::AssertUnwindSafe(&outcome);
            let pretty = std::panic::catch_unwind(move || scrut::renderers::pretty::PrettyMonochromeRenderer::new(scrut::renderers::pretty::PrettyColorRenderer {
                    max_surrounding_lines: surrounding, absolute_line_numbers: false, summarize: true }).render(&[*o1]));
            let o2 = std::panic::AssertUnwindSafe(&outcome);
            let diffr = std::panic::catch_unwind(move || scrut::renderers::diff::DiffRenderer::new().render(&[*o2]));
            json!({"pretty": show(pretty), "diff": show(diffr)})
        }
        // pretty and diff renderer on a list of outcomes: [kinds over P F C T S, located?] — the same texts as the E2 harness uses
        "render_outcome_list" => {
            use scrut::renderers::renderer::Renderer;
            let kinds = str_arg(&a[0]);
            let same = a[1].as_str() == Some("same");
            let located = same || a[1].as_bool().unwrap_or(false);
            let maker = scrut::expectation::ExpectationMaker::new(scrut::rules::registry::RuleRegistry::default());
            let mut outcomes = vec![];
            for (i, k) in kinds.chars().enumerate() {
                let exp = maker.parse(&format!("want{}q", i)).unwrap();
                let line = format!("got{}z\n", i).into_bytes();
                let testcase = scrut::testcase::TestCase { title: format!("title{}t", i), shell_expression: format!("cmd{}c", i), expectations: vec![exp.clone()],
                    exit_code: None, line_number: if same { 3 } else { 3 + 10 * i }, config: scrut::config::TestCaseConfig::empty() };
                let result = match k {
                    'P' => Ok(()),
                    'F' => Err(scrut::testcase::TestCaseError::MalformedOutput(scrut::diff::Diff::new(vec![
                        scrut::diff::DiffLine::UnmatchedExpectation { index: 0, expectation: exp.clone() },
                        scrut::diff::DiffLine::UnexpectedLines { lines: vec![(0, line.clone())] }]))),
                    'C' | 'Z' => Err(scrut::testcase::TestCaseError::InvalidExitCode { actual: 4, expected: 0 }),
                    'T' => Err(scrut::testcase::TestCaseError::Timeout),
                    _ => Err(scrut::testcase::TestCaseError::Skipped),
                };
                let output = scrut::output::Output { stdout: (if k == 'F' || k == 'C' || k == 'Z' { line.clone() } else { vec![] }).into(), stderr: vec![].into(),
                    exit_code: scrut::output::ExitStatus::Code(if k == 'C' || k == 'Z' { 4 } else { 0 }) };
                let mut testcase = testcase;
                if k == 'Z' { testcase.exit_code = Some(0); }
                outcomes.push(scrut::outcome::Outcome { location: if located { Some(format!("doc{}.md", if same { 0 } else { i % 2 })) } else { None }, output, testcase,
                    format: scrut::parsers::parser::ParserType::Markdown, escaping: scrut::escaping::Escaper::Unicode, result });
            }
            let refs: Vec<&scrut::outcome::Outcome> = outcomes.iter().collect();
            let show = |r: std::thread::Result<anyhow::Result<String>>| match r {
                Ok(Ok(s)) => json!({"Ok": s}), Ok(Err(e)) => json!({"Err": format!("{:#}", e)}), Err(_) => json!({"panic": true}) };
            let r1 = std::panic::AssertUnwindSafe(&refs);
            let pretty = std::panic::catch_unwind(move || scrut::renderers::pretty::PrettyMonochromeRenderer::new(scrut::renderers::pretty::PrettyColorRenderer {
                    max_surrounding_lines: 1, absolute_line_numbers: false, summarize: true }).render(&r1[..]));
            let r2 = std::panic::AssertUnwindSafe(&refs);
            let diffr = std::panic::catch_unwind(move || scrut::renderers::diff::DiffRenderer::new().render(&r2[..]));
            json!({"pretty": show(pretty), "diff": show(diffr)})
        }
        // pretty and diff renderer on a failed test case with a matched expectation `text`, an unmatched `text`x and an unexpected line `text`y
        "render_long_lines" => {
            use scrut::renderers::renderer::Renderer;
            let text = str_arg(&a[0]);
            let surrounding = a[1].as_u64().unwrap_or(5) as usize;
            let maker = scrut::expectation::ExpectationMaker::new(scrut::rules::registry::RuleRegistry::default());
            let e0 = maker.parse(&text).unwrap();
            let e1 = maker.parse(&format!("{}x", text)).unwrap();
            let diff = scrut::diff::Diff::new(vec![
                scrut::diff::DiffLine::MatchedExpectation { index: 0, expectation: e0.clone(), lines: vec![(0, format!("{}\n", text).into_bytes())] },
                scrut::diff::DiffLine::UnmatchedExpectation { index: 1, expectation: e1.clone() },
                scrut::diff::DiffLine::UnexpectedLines { lines: vec![(1, format!("{}y\n", text).into_bytes())] },
            ]);
            let testcase = scrut::testcase::TestCase { title: "t".into(), shell_expression: "cmd".into(), expectations: vec![e0, e1], exit_code: None,
                line_number: 3, config: scrut::config::TestCaseConfig::empty() };
            let outcome = scrut::outcome::Outcome { location: None, output: ("", "", Some(0)).into(), testcase,
                format: scrut::parsers::parser::ParserType::Markdown, escaping: scrut::escaping::Escaper::Unicode,
                result: Err(scrut::testcase::TestCaseError::MalformedOutput(diff)) };
            let show = |r: std::thread::Result<anyhow::Result<String>>| match r {
                Ok(Ok(s)) => json!({"Ok": s}), Ok(Err(e)) => json!({"Err": format!("{:#}", e)}), Err(_) => json!({"panic": true}) };
            let o1 = std::panic::AssertUnwindSafe(&outcome);
            let pretty = std::panic::catch_unwind(move || scrut::renderers::pretty::PrettyMonochromeRenderer::new(scrut::renderers::pretty::PrettyColorRenderer {
                    max_surrounding_lines: surrounding, absolute_line_numbers: false, summarize: false }).render(&[*o1]));
            let o2 = std::panic::AssertUnwindSafe(&outcome);
            let diffr = std::panic::catch_unwind(move || scrut::renderers::diff::DiffRenderer::new().render(&[*o2]));
            json!({"pretty": show(pretty), "diff": show(diffr)})
        }
        // every renderer on one failed test case: expectation `want` unmatched, one unexpected output line of the given bytes
        "render_unexpected_line" => {
            use scrut::renderers::renderer::Renderer;
            let line = bytes_arg(&a[0]);
            let maker = scrut::expectation::ExpectationMaker::new(scrut::rules::registry::RuleRegistry::default());
            let exp = maker.parse("want").unwrap();
            let diff = scrut::diff::Diff::new(vec![
                scrut::diff::DiffLine::UnmatchedExpectation { index: 0, expectation: exp.clone() },
                scrut::diff::DiffLine::UnexpectedLines { lines: vec![(0, line.clone())] },
            ]);
            let testcase = scrut::testcase::TestCase { title: "t".into(), shell_expression: "cmd".into(), expectations: vec![exp], exit_code: None,
                line_number: 3, config: scrut::config::TestCaseConfig::empty() };
            let outcome = scrut::outcome::Outcome { location: None,
                output: scrut::output::Output { stdout: line.clone().into(), stderr: vec![].into(), exit_code: scrut::output::ExitStatus::Code(0) },
                testcase, format: scrut::parsers::parser::ParserType::Markdown, escaping: scrut::escaping::Escaper::Unicode,
                result: Err(scrut::testcase::TestCaseError::MalformedOutput(diff)) };
            let show = |r: anyhow::Result<String>| match r { Ok(s) => json!({"Ok": s}), Err(e) => json!({"Err": format!("{:#}", e)}) };
            json!({
                "diff": show(scrut::renderers::diff::DiffRenderer::new().render(&[&outcome])),
                "pretty": show(scrut::renderers::pretty::PrettyMonochromeRenderer::new(scrut::renderers::pretty::PrettyColorRenderer {
                    max_surrounding_lines: 5, absolute_line_numbers: false, summarize: true }).render(&[&outcome])),
                "json": show(scrut::renderers::structured::JsonRenderer::default().render(&[&outcome])),
                "yaml": show(scrut::renderers::structured::YamlRenderer::default().render(&[&outcome])),
            })
        }
        // run one shell expression through the real BashRunner (fresh state directory): {"stdout": bytes, "status": str}
        "bash_run" => {
            use scrut::executors::runner::Runner;
            let tmp = std::env::temp_dir().join(format!("verif-bash-{}", std::process::id()));
            let _ = std::fs::create_dir_all(tmp.join("state"));
            let runner = scrut::executors::bash_runner::BashRunner::new(std::path::Path::new("/bin/bash"), &tmp.join("state"));
            let context = scrut::executors::context::ContextBuilder::default()
                .work_directory(tmp.clone()).temp_directory(tmp.clone()).file(std::path::PathBuf::from("f.md"))
                .config(scrut::config::DocumentConfig::empty()).build().unwrap();
            let mut config = scrut::config::TestCaseConfig::empty();
            // optional 2nd argument: the test case's time limit in milliseconds (null = none); default 10 s
            config.timeout = match a.get(1) {
                Some(v) if v.is_null() => None,
                Some(v) => Some(std::time::Duration::from_millis(v.as_u64().unwrap_or(10_000))),
                None => Some(std::time::Duration::from_secs(10)),
            };
            // optional 3rd argument: {"env": {..} the test case's variables, "parent_env": {..} set in this process first}
            let mut parent_keys = vec![];
            if let Some(extra) = a.get(2).and_then(|v| v.as_object()) {
                if let Some(env) = extra.get("env").and_then(|v| v.as_object()) {
                    for (k, v) in env { config.environment.insert(k.clone(), v.as_str().unwrap_or("").to_string()); }
                }
                if let Some(env) = extra.get("parent_env").and_then(|v| v.as_object()) {
                    for (k, v) in env { std::env::set_var(k, v.as_str().unwrap_or("")); parent_keys.push(k.clone()); }
                }
            }
            let testcase = scrut::testcase::TestCase { title: "t".into(), shell_expression: str_arg(&a[0]), expectations: vec![],
                exit_code: None, line_number: 1, config };
            let out = runner.run("exec1", &testcase, &context);
            for k in parent_keys { std::env::remove_var(k); }
            let _ = std::fs::remove_dir_all(&tmp);
            match out {
                Ok(o) => { let so: Vec<u8> = (&o.stdout).into(); let se: Vec<u8> = (&o.stderr).into();
                           json!({"stdout": so, "stderr": se, "status": o.exit_code.to_string()}) }
                Err(e) => json!({"error": e.to_string()}),
            }
        }
        // a real shell that kills itself with SIGKILL, run through the real SubprocessRunner
        "signal_status" => {
            use scrut::executors::runner::Runner;
            let runner = scrut::executors::subprocess_runner::SubprocessRunner::new(std::path::PathBuf::from("/bin/bash"));
            let tmp = std::env::temp_dir().join(format!("verif-sig-{}", std::process::id()));
            let _ = std::fs::create_dir_all(&tmp);
            let context = scrut::executors::context::ContextBuilder::default()
                .work_directory(tmp.clone()).temp_directory(tmp.clone()).file(std::path::PathBuf::from("f.md"))
                .config(scrut::config::DocumentConfig::empty()).build().unwrap();
            let testcase = scrut::testcase::TestCase { title: "t".into(), shell_expression: "kill -KILL $$".into(), expectations: vec![],
                exit_code: None, line_number: 1, config: scrut::config::TestCaseConfig::empty() };
            let out = runner.run("sig", &testcase, &context);
            let _ = std::fs::remove_dir_all(&tmp);
            match out {
                Ok(o) => json!({"status": o.exit_code.to_string(), "code_produced": matches!(o.exit_code, scrut::output::ExitStatus::Code(_))}),
                Err(e) => json!({"error": e.to_string(), "code_produced": false}),
            }
        }
        "max_backtick_size" => {
            json!(scrut::generators::markdown::verif_hooks::max_backtick_size(&str_arg(&a[0])))
        }
        "split_at_newline" => {
            let b = bytes_arg(&a[0]);
            Value::Array(
                scrut::newline::verif_hooks::split_at_newline(&b)
                    .iter()
                    .map(|l| bytes_val(l))
                    .collect(),
            )
        }
        "trim_newlines_bytes" => {
            let b = bytes_arg(&a[0]);
            bytes_val(scrut::newline::verif_hooks::trim_newlines_bytes(&b))
        }
        "replace_crlf" => {
            let b = bytes_arg(&a[0]);
            bytes_val(&scrut::newline::replace_crlf(&b))
        }
        "glob_to_regex_string" => {
            json!(scrut::rules::glob_cram::verif_hooks::glob_to_regex_string(&str_arg(&a[0])))
        }
        "escaped_printable" => json!(escaper(&a[0]).escaped_printable(&bytes_arg(&a[1]))),
        "escaped_expectation" => json!(escaper(&a[0]).escaped_expectation(&bytes_arg(&a[1]))),
        "has_unprintable" => json!(escaper(&a[0]).has_unprintable(&bytes_arg(&a[1]))),
        "apply_escaped_filter_bytes" => {
            match scrut::rules::escaped_filter::verif_hooks::apply_escaped_filter_bytes(&str_arg(&a[0])) {
                Ok(b) => json!({"Ok": bytes_val(&b)}),
                Err(e) => json!({"Err": e.to_string()}),
            }
        }
        "expression_as_escaped" => {
            let s = str_arg(&a[0]);
            match scrut::rules::escaped_filter::verif_hooks::expression_as_escaped(&s) {
                None => Value::Null,
                Some(x) => json!({"Some": x}),
            }
        }
        "parse_divider_bytes" => {
            match scrut::executors::bash_script_executor::verif_hooks::parse_divider_bytes(&bytes_arg(&a[0])) {
                Ok(None) => json!({"Ok": Value::Null}),
                Ok(Some((prefix, index, code))) => {
                    json!({"Ok": {"Some": [prefix.map(|p| bytes_val(&p)), index, code]}})
                }
                Err(e) => json!({"Err": e}),
            }
        }
        "iterate_divided_output" => {
            let salt = a.get(1).map(str_arg).unwrap_or_else(|| "SALT".to_string());
            match scrut::executors::bash_script_executor::verif_hooks::iterate_divided_output(&salt, &bytes_arg(&a[0])) {
                Ok(v) => json!({"Ok": v.iter().map(|(i, o, c)| json!([i, bytes_val(o), c])).collect::<Vec<_>>()}),
                Err(e) => json!({"Err": e}),
            }
        }
        // json and yaml renderer on one outcome: [location|null, title, "passed"|"timeout"|"skipped"]
        "render_structured" => {
            use scrut::renderers::renderer::Renderer;
            let testcase = scrut::testcase::TestCase { title: str_arg(&a[1]), shell_expression: "x".into(), expectations: vec![], exit_code: None,
                line_number: 1, config: scrut::config::TestCaseConfig::empty() };
            let result = match a[2].as_str().unwrap_or("passed") {
                "timeout" => Err(scrut::testcase::TestCaseError::Timeout),
                "skipped" => Err(scrut::testcase::TestCaseError::Skipped),
                _ => Ok(()),
            };
            let outcome = scrut::outcome::Outcome { location: a[0].as_str().map(|s| s.to_string()), output: ("", "", Some(0)).into(), testcase,
                format: scrut::parsers::parser::ParserType::Markdown, escaping: scrut::escaping::Escaper::Unicode, result };
            let show = |r: anyhow::Result<String>| match r { Ok(s) => json!({"Ok": s}), Err(e) => json!({"Err": format!("{:#}", e)}) };
            json!({"json": show(scrut::renderers::structured::JsonRenderer::default().render(&[&outcome])),
                   "yaml": show(scrut::renderers::structured::YamlRenderer::default().render(&[&outcome]))})
        }
        // serde_yaml::to_string(TestCaseConfig) → serde_yaml::from_str: equal?
        "tcc_yaml_roundtrip" => {
            let config = crate::cfg::tcc_from(&a[0]);
            match serde_yaml::to_string(&config) {
                Err(e) => json!({"equal": false, "rendered": format!("error: {:#}", e)}),
                Ok(text) => match serde_yaml::from_str::<scrut::config::TestCaseConfig>(&text) {
                    Ok(back) => json!({"equal": back == config, "rendered": text, "parsed": crate::cfg::tcc_to(&back)}),
                    Err(e) => json!({"equal": false, "rendered": text, "parsed": format!("error: {:#}", e)}),
                },
            }
        }
        // [config, default] → diff(config, default).with_defaults_from(default) == config.with_defaults_from(default)?
        "tcc_diff_defaults" => {
            let c = crate::cfg::tcc_from(&a[0]);
            let d = crate::cfg::tcc_from(&a[1]);
            let got = c.diff(&d).with_defaults_from(&d);
            let want = c.with_defaults_from(&d);
            json!({"equal": got == want, "got": crate::cfg::tcc_to(&got), "want": crate::cfg::tcc_to(&want)})
        }
        // TestCase::render_output(bytes) under keep_crlf / strip_ansi_escaping (null | bool each)
        "render_output" => {
            let mut config = scrut::config::TestCaseConfig::empty();
            config.keep_crlf = a[1].as_bool();
            config.strip_ansi_escaping = a[2].as_bool();
            let tc = scrut::testcase::TestCase { title: "t".into(), shell_expression: "x".into(), expectations: vec![], exit_code: None, line_number: 1, config };
            match tc.render_output(&bytes_arg(&a[0])) {
                Ok(v) => json!({"Ok": bytes_val(&v)}),
                Err(e) => json!({"Err": format!("{:#}", e)}),
            }
        }
        // the real single-script executor: {"commands": [..], "skip": i32|null (every test case), "default_skip": i32|null (document defaults)}
        "script_skip" => {
            use scrut::executors::executor::Executor;
            let w = &a[0];
            let tests: Vec<scrut::testcase::TestCase> = w["commands"].as_array().unwrap().iter().enumerate().map(|(i, e)| {
                let mut config = scrut::config::TestCaseConfig::default_cram();
                config.skip_document_code = w["skip"].as_i64().map(|x| x as i32);
                scrut::testcase::TestCase { title: "t".into(), shell_expression: str_arg(e), expectations: vec![], exit_code: None, line_number: i + 1, config }
            }).collect();
            let refs: Vec<&scrut::testcase::TestCase> = tests.iter().collect();
            let tmp = std::env::temp_dir().join(format!("verif-skip-{}", std::process::id()));
            let _ = std::fs::create_dir_all(&tmp);
            let mut doc = scrut::config::DocumentConfig::default_cram();
            doc.defaults.skip_document_code = w["default_skip"].as_i64().map(|x| x as i32);
            if let Some(ms) = w.get("total_timeout_ms").and_then(|v| v.as_u64()) { doc.total_timeout = Some(std::time::Duration::from_millis(ms)); }
            let context = scrut::executors::context::ContextBuilder::default()
                .work_directory(tmp.clone()).temp_directory(tmp.clone()).file(std::path::PathBuf::from("file.t")).config(doc).build().unwrap();
            let res = scrut::executors::bash_script_executor::BashScriptExecutor::default().execute_all(&refs, &context);
            let _ = std::fs::remove_dir_all(&tmp);
            match res {
                Ok(outs) => json!({"Ok": outs.iter().map(|o| format!("{:?}", o.exit_code)).collect::<Vec<_>>()}),
                Err(scrut::executors::error::ExecutionError::Skipped(i)) => json!({"Err": format!("Skipped({})", i)}),
                Err(scrut::executors::error::ExecutionError::Timeout(k, outs)) => json!({"Err": format!("Timeout({:?})", k),
                    "kept_stdout": outs.iter().map(|o| { let b: Vec<u8> = (&o.stdout).into(); b }).collect::<Vec<_>>()}),
                Err(e) => json!({"Err": format!("{:#}", e).chars().take(120).collect::<String>()}),
            }
        }
        // the real single-script executor with keep_crlf off on a command that prints CR CR LF → recorded stdout of the test case
        "script_crlf" => {
            use scrut::executors::executor::Executor;
            let mut config = scrut::config::TestCaseConfig::default_cram();
            config.keep_crlf = Some(false);
            let test = scrut::testcase::TestCase { title: "t".into(), shell_expression: "printf 'a\\r\\r\\n'".into(), expectations: vec![], exit_code: None, line_number: 1, config };
            let tmp = std::env::temp_dir().join(format!("verif-crlf-{}", std::process::id()));
            let _ = std::fs::create_dir_all(&tmp);
            let context = scrut::executors::context::ContextBuilder::default()
                .work_directory(tmp.clone()).temp_directory(tmp.clone()).file(std::path::PathBuf::from("file.t"))
                .config(scrut::config::DocumentConfig::default_cram()).build().unwrap();
            let res = scrut::executors::bash_script_executor::BashScriptExecutor::default().execute_all(&[&test], &context);
            let _ = std::fs::remove_dir_all(&tmp);
            match res {
                Ok(outs) => { let so: Vec<u8> = (&outs[0].stdout).into(); json!({"stdout": so}) }
                Err(e) => json!({"error": format!("{:#}", e)}),
            }
        }
        // the real single-script (Cram) executor on a list of shell expressions: [[expr…], combined?] → per test stdout / stderr / status
        "script_execute_all" => {
            use scrut::executors::executor::Executor;
            let exprs: Vec<String> = a[0].as_array().unwrap().iter().map(str_arg).collect();
            let combined = a.get(1).and_then(|v| v.as_bool()).unwrap_or(true);
            let tests: Vec<scrut::testcase::TestCase> = exprs.iter().enumerate().map(|(i, e)| {
                let mut config = scrut::config::TestCaseConfig::default_cram();
                if !combined { config.output_stream = Some(scrut::config::OutputStreamControl::Stdout); }
                scrut::testcase::TestCase { title: "t".into(), shell_expression: e.clone(), expectations: vec![], exit_code: None, line_number: i + 1, config }
            }).collect();
            let refs: Vec<&scrut::testcase::TestCase> = tests.iter().collect();
            let tmp = std::env::temp_dir().join(format!("verif-script-{}", std::process::id()));
            let _ = std::fs::create_dir_all(&tmp);
            let context = scrut::executors::context::ContextBuilder::default()
                .work_directory(tmp.clone()).temp_directory(tmp.clone()).file(std::path::PathBuf::from("file.t"))
                .config(scrut::config::DocumentConfig::default_cram()).build().unwrap();
            let res = scrut::executors::bash_script_executor::BashScriptExecutor::default().execute_all(&refs, &context);
            let _ = std::fs::remove_dir_all(&tmp);
            match res {
                Ok(outs) => json!({"Ok": outs.iter().map(|o| { let so: Vec<u8> = (&o.stdout).into(); let se: Vec<u8> = (&o.stderr).into();
                    json!({"stdout": so, "stderr": se, "status": format!("{:?}", o.exit_code)}) }).collect::<Vec<_>>()}),
                Err(e) => json!({"Err": format!("{:#}", e)}),
            }
        }
        "generate_divider" => json!(scrut::executors::bash_script_executor::verif_hooks::generate_divider(
            &str_arg(&a[0]),
            a[1].as_u64().unwrap() as usize
        )),
        "expectation_regex_source" => {
            let reg = scrut::rules::registry::RuleRegistry::default();
            json!(scrut::rules::registry::verif_hooks::expectation_regex_source(&reg).unwrap())
        }
        // rule kinds through the public makers: {"fn":"rule_matches","args":[kind, expression, line-bytes]}
        "rule_matches" => {
            let kind = a[0].as_str().unwrap();
            let expr = str_arg(&a[1]);
            let line = bytes_arg(&a[2]);
            let rule = match kind {
                "equal" => scrut::rules::equal::EqualRule::make(&expr),
                "no-eol" => scrut::rules::no_eol::EqualNoEolRule::make(&expr),
                "escaped" => scrut::rules::escaped::EscapedRule::make(&expr),
                "glob" => scrut::rules::glob::GlobRule::make(&expr),
                "glob-cram" => scrut::rules::glob_cram::CramGlobRule::make(&expr),
                "regex" => scrut::rules::regex::RegexRule::make(&expr),
                _ => Err(anyhow::anyhow!("unknown kind")),
            };
            match rule {
                Ok(r) => json!({"Ok": r.matches(&line)}),
                Err(e) => json!({"Err": e.to_string()}),
            }
        }
        _ => json!({"unknown_fn": name}),
    }
}

pub fn main() -> i32 {
    panic::set_hook(Box::new(|_| {}));
    let stdin = std::io::stdin();
    for line in stdin.lock().lines() {
        let line = line.unwrap();
        if line.trim().is_empty() {
            continue;
        }
        let req: Value = match serde_json::from_str(&line) {
            Ok(v) => v,
            Err(e) => {
                println!("{}", json!({"kind": "error", "value": e.to_string()}));
                continue;
            }
        };
        let name = req["fn"].as_str().unwrap_or("").to_string();
        let args: Vec<Value> = req["args"].as_array().cloned().unwrap_or_default();
        let res = panic::catch_unwind(panic::AssertUnwindSafe(|| eval(&name, &args)));
        match res {
            Ok(v) => println!("{}", json!({"kind": "return", "value": v})),
            Err(e) => {
                let msg = if let Some(s) = e.downcast_ref::<&str>() {
                    s.to_string()
                } else if let Some(s) = e.downcast_ref::<String>() {
                    s.clone()
                } else {
                    "panic".to_string()
                };
                println!("{}", json!({"kind": "panic", "value": msg}));
            }
        }
    }
    0
}
