//! Replays executor witnesses: the real `StatefulExecutor::execute_all` with a scripted stub runner that
//! records the configuration (timeout) it is handed.  No process is started, nothing sleeps.
use scrut::config::DocumentConfig;
use scrut::config::TestCaseConfig;
use scrut::executors::context::ContextBuilder;
use scrut::executors::error::ExecutionError;
use scrut::executors::error::ExecutionTimeout;
use scrut::executors::executor::Executor;
use scrut::executors::runner::Runner;
use scrut::executors::stateful_executor::StatefulExecutor;
use scrut::output::ExitStatus;
use scrut::output::Output;
use scrut::testcase::TestCase;
use serde_json::json;
use serde_json::Value;
use std::sync::Arc;
use std::sync::Mutex;
use std::time::Duration;

struct Stub {
    script: Vec<Value>,
    seen: Arc<Mutex<Vec<Value>>>,
}

fn dur(v: &Value) -> Option<Duration> {
    match v {
        Value::Null => None,
        Value::String(s) => s.parse::<u128>().ok().map(|n| Duration::new((n / 1_000_000_000) as u64, (n % 1_000_000_000) as u32)),
        _ => v.as_u64().map(Duration::from_nanos),
    }
}

fn status_of(v: &Value) -> Option<ExitStatus> {
    match v["status"].as_str().unwrap_or("Unknown") {
        "Code" => Some(ExitStatus::Code(v["code"].as_i64().unwrap_or(0) as i32)),
        "Timeout" => Some(ExitStatus::Timeout(Duration::from_nanos(5))),
        "Skipped" => Some(ExitStatus::Skipped),
        "Detached" => Some(ExitStatus::Detached),
        "RunnerError" => None,
        _ => Some(ExitStatus::Unknown),
    }
}

impl Runner for Stub {
    fn run(&self, name: &str, testcase: &TestCase, _context: &scrut::executors::context::Context) -> anyhow::Result<Output> {
        let mut seen = self.seen.lock().unwrap();
        let i = seen.len();
        seen.push(json!({"name": name, "timeout": testcase.config.timeout.map(|d| d.as_nanos().to_string()),
                         "scrut_test": testcase.config.environment.get("SCRUT_TEST"), "config": crate::cfg::tcc_to(&testcase.config)}));
        if let Some(ns) = self.script[i]["sleep_ns"].as_u64() {
            if ns > 0 {
                std::thread::sleep(Duration::from_nanos(ns.min(300_000_000)));
            }
        }
        match status_of(&self.script[i]) {
            None => Err(anyhow::anyhow!("stub runner error")),
            Some(status) => Ok(Output { stdout: vec![b'0' + i as u8].into(), stderr: vec![].into(), exit_code: status }),
        }
    }
}

fn status_json(s: &ExitStatus) -> Value {
    match s {
        ExitStatus::Code(c) => json!({"status": "Code", "code": c}),
        ExitStatus::Timeout(d) => json!({"status": "Timeout", "duration": d.as_nanos().to_string()}),
        ExitStatus::Skipped => json!({"status": "Skipped"}),
        ExitStatus::Detached => json!({"status": "Detached"}),
        ExitStatus::Unknown => json!({"status": "Unknown"}),
    }
}

fn outputs_json(o: &[Output]) -> Value {
    Value::Array(o.iter().map(|x| {
        let out: Vec<u8> = (&x.stdout).into();
        json!({"exit": status_json(&x.exit_code), "stdout": out})
    }).collect())
}

/// {"tests": [{"timeout": ns|null, "skip": i32|null}], "script": [{"status":..,"code":..}], "total_timeout": ns|null,
///  "default_skip": i32|null}
pub fn execute_all(w: &Value) -> Value {
    let script: Vec<Value> = w["script"].as_array().cloned().unwrap_or_default();
    let seen = Arc::new(Mutex::new(vec![]));
    let seen2 = seen.clone();
    let script2 = script.clone();
    let executor = StatefulExecutor::new(Box::new(move |_path| {
        Box::new(Stub { script: script2.clone(), seen: seen2.clone() }) as Box<dyn Runner>
    }));
    let tests: Vec<TestCase> = w["tests"].as_array().unwrap().iter().enumerate().map(|(i, t)| {
        // either the two keys the timeout / skip claims need, or a full configuration (C16: document defaults in the executor)
        let mut config = if t["config"].is_object() { crate::cfg::tcc_from(&t["config"]) } else { TestCaseConfig::empty() };
        if !t["config"].is_object() {
            config.timeout = dur(&t["timeout"]);
            config.skip_document_code = t["skip"].as_i64().map(|x| x as i32);
        }
        TestCase { title: "t".into(), shell_expression: "x".into(), expectations: vec![], exit_code: t["expected"].as_i64().map(|x| x as i32),
                   line_number: i + 1, config }
    }).collect();
    let refs: Vec<&TestCase> = tests.iter().collect();
    let mut doc = DocumentConfig::empty();
    doc.total_timeout = dur(&w["total_timeout"]);
    if w["defaults"].is_object() {
        doc.defaults = crate::cfg::tcc_from(&w["defaults"]);
    } else {
        doc.defaults.skip_document_code = w["default_skip"].as_i64().map(|x| x as i32);
    }
    let tmp = std::env::temp_dir().join(format!("verif-exec-{}", std::process::id()));
    let _ = std::fs::create_dir_all(&tmp);
    let context = ContextBuilder::default()
        .work_directory(tmp.clone())
        .temp_directory(tmp.clone())
        .file(std::path::PathBuf::from("file.md"))
        .config(doc)
        .build()
        .unwrap();
    let result = executor.execute_all(&refs, &context);
    let _ = std::fs::remove_dir_all(&tmp);
    let runs = seen.lock().unwrap().clone();
    let res = match result {
        Ok(outputs) => json!({"Ok": outputs_json(&outputs)}),
        Err(ExecutionError::Skipped(i)) => json!({"Err": {"Skipped": i}}),
        Err(ExecutionError::Timeout(t, outputs)) => json!({"Err": {"Timeout": match t { ExecutionTimeout::Total => json!("Total"), ExecutionTimeout::Index(i) => json!({"Index": i}) }, "outputs": outputs_json(&outputs)}}),
        Err(ExecutionError::FailedExecution { index, .. }) => json!({"Err": {"Failed": index}}),
        Err(ExecutionError::AbortedExecutions { .. }) => json!({"Err": "Aborted"}),
    };
    json!({"result": res, "runs": runs})
}
