//! verif-native: native companion of the solver-based checks (DSE explorer, witness replay).
mod cfg;
mod dse;
mod eval;
mod exec;

use std::io::Read;

fn read_json(path: &str) -> serde_json::Value {
    let mut s = String::new();
    if path == "-" {
        std::io::stdin().read_to_string(&mut s).unwrap();
    } else {
        s = std::fs::read_to_string(path).expect("witness file readable");
    }
    serde_json::from_str(&s).expect("witness is JSON")
}

fn main() {
    let args: Vec<String> = std::env::args().collect();
    if args.len() < 2 {
        eprintln!("usage: verif-native <subcommand> ...");
        std::process::exit(64);
    }
    let rest = &args[2..];
    let code = match args[1].as_str() {
        "dse" => dse::main(rest),
        "eval" => eval::main(),
        "crlf-depth" => {
            // replace_crlf on N CR LF pairs in this (expendable) process: a stack overflow kills it
            let n: usize = rest[0].parse().unwrap();
            let input = b"\r\n".repeat(n);
            let out = scrut::newline::replace_crlf(&input);
            println!("{}", out.len());
            0
        }
        "replay-diff" => {
            println!("{}", dse::replay(&read_json(&rest[0])));
            0
        }
        other => {
            eprintln!("unknown subcommand {}", other);
            64
        }
    };
    std::process::exit(code);
}
